//! F180 — C08 (a disconnected member leaves its group), C06 (no ghost records), C13 (a frame that is not a valid
//! request ... leaves every other connection untouched).
//! A TCP frame whose length word is smaller than 4 makes `ServerCommand::from_bytes` index `bytes[..4]` out of range:
//! the connection task panics. The panic unwinds past the `delete_client` call of the listener, so the socket is
//! closed but the client record — and its consumer-group membership — stays forever.
use iggy::client::{Client, ConsumerGroupClient, StreamClient, SystemClient, TopicClient, UserClient};
use iggy::compression::compression_algorithm::CompressionAlgorithm;
use iggy::identifier::Identifier;
use iggy::tcp::client::TcpClient;
use iggy::tcp::config::TcpClientConfig;
use iggy::utils::expiry::IggyExpiry;
use iggy::utils::topic_size::MaxTopicSize;
use iggy::bytes_serializable::BytesSerializable;
use iggy::command::{Command};
use server::configs::server::{DataMaintenanceConfig, PersonalAccessTokenConfig};
use server::configs::system::SystemConfig;
use server::configs::tcp::TcpConfig;
use server::streaming::systems::system::{SharedSystem, System};
use server::tcp::tcp_server;
use std::net::SocketAddr;
use std::sync::Arc;
use tokio::io::{AsyncReadExt, AsyncWriteExt};

async fn start_server(path: &str) -> (SharedSystem, SocketAddr) {
    let config = Arc::new(SystemConfig { path: path.to_string(), ..Default::default() });
    let mut system = System::new(config, DataMaintenanceConfig::default(), PersonalAccessTokenConfig::default());
    system.init().await.unwrap();
    let system = SharedSystem::new(system);
    let tcp_config = TcpConfig { address: "127.0.0.1:0".to_string(), ..Default::default() };
    let addr = tcp_server::start(tcp_config, system.clone()).await;
    (system, addr)
}

async fn connect(addr: SocketAddr) -> TcpClient {
    let client = TcpClient::create(Arc::new(TcpClientConfig { server_address: addr.to_string(), ..Default::default() })).unwrap();
    client.connect().await.unwrap();
    client.login_user("iggy", "iggy").await.unwrap();
    client
}

/// one request over a raw socket: le32(len) ++ le32(code) ++ payload; returns (status, body)
async fn raw_request(stream: &mut tokio::net::TcpStream, code: u32, payload: &[u8]) -> (u32, Vec<u8>) {
    let mut frame = Vec::new();
    frame.extend_from_slice(&((payload.len() + 4) as u32).to_le_bytes());
    frame.extend_from_slice(&code.to_le_bytes());
    frame.extend_from_slice(payload);
    stream.write_all(&frame).await.unwrap();
    let mut header = [0u8; 8];
    stream.read_exact(&mut header).await.unwrap();
    let status = u32::from_le_bytes(header[..4].try_into().unwrap());
    let length = u32::from_le_bytes(header[4..].try_into().unwrap()) as usize;
    let mut body = vec![0u8; length];
    stream.read_exact(&mut body).await.unwrap();
    (status, body)
}

#[tokio::test(flavor = "multi_thread")]
async fn f180_short_frame_leaves_a_ghost_member() {
    // the malformed frame: length word 2, two bytes of payload (shorter than a command code)
    ghost_check("F180", &[2, 0, 0, 0, 0xAA, 0xBB]).await;
}

/// F181 — same consequence, another panic site: an identifier whose length byte (200) reaches past the end of the frame makes
/// `Identifier::from_bytes` slice out of range (GetStream, code 200... the code is taken from the SDK constant below).
#[tokio::test(flavor = "multi_thread")]
async fn f181_identifier_length_past_the_frame_leaves_a_ghost_member() {
    let mut frame = Vec::new();
    frame.extend_from_slice(&7u32.to_le_bytes());
    frame.extend_from_slice(&iggy::command::GET_STREAM_CODE.to_le_bytes());
    frame.extend_from_slice(&[1, 200, 7]);
    ghost_check("F181", &frame).await;
}

async fn ghost_check(tag: &str, malformed: &[u8]) {
    let dir = tempfile::TempDir::new().unwrap();
    let (_system, addr) = start_server(dir.path().to_str().unwrap()).await;
    let admin = connect(addr).await;
    let one = Identifier::numeric(1).unwrap();
    admin.create_stream("s", Some(1)).await.unwrap();
    admin
        .create_topic(&one, "t", 2, CompressionAlgorithm::None, None, Some(1), IggyExpiry::NeverExpire, MaxTopicSize::ServerDefault)
        .await
        .unwrap();
    admin.create_consumer_group(&one, &one, "g", Some(1)).await.unwrap();

    // a second client, speaking the protocol over a raw socket: logs in and joins the group
    let mut raw = tokio::net::TcpStream::connect(addr).await.unwrap();
    let login = iggy::users::login_user::LoginUser { username: "iggy".into(), password: "iggy".into(), version: None, context: None };
    let (status, _) = raw_request(&mut raw, login.code(), &login.to_bytes()).await;
    assert_eq!(status, 0, "login");
    let join = iggy::consumer_groups::join_consumer_group::JoinConsumerGroup { stream_id: one.clone(), topic_id: one.clone(), group_id: one.clone() };
    let (status, _) = raw_request(&mut raw, join.code(), &join.to_bytes()).await;
    assert_eq!(status, 0, "join");
    let group = admin.get_consumer_group(&one, &one, &one).await.unwrap().unwrap();
    assert_eq!(group.members_count, 1);
    assert_eq!(admin.get_clients().await.unwrap().len(), 2);

    raw.write_all(malformed).await.unwrap();
    // the server answers with an error response or closes the connection; either is fine
    let mut header = [0u8; 8];
    let answered = tokio::time::timeout(std::time::Duration::from_secs(2), raw.read_exact(&mut header)).await;
    let closed = !matches!(answered, Ok(Ok(_)));
    if let Ok(Ok(_)) = answered {
        assert_ne!(u32::from_le_bytes(header[..4].try_into().unwrap()), 0, "a malformed frame must not be answered with OK");
    }
    drop(raw);
    tokio::time::sleep(std::time::Duration::from_millis(300)).await;

    // every OTHER connection is untouched ...
    admin.ping().await.expect("the other connection still works");
    // ... and the connection that sent the frame is gone WITH its session: not listed, not a member any more
    let clients = admin.get_clients().await.unwrap();
    let group = admin.get_consumer_group(&one, &one, &one).await.unwrap().unwrap();
    assert!(
        clients.len() == 1 && group.members_count == 0,
        "{tag}: after the malformed frame (connection ended by the server instead of an error response: {closed}) the server still lists {} clients and the group still has {} member(s) holding partitions",
        clients.len(),
        group.members_count
    );
}
