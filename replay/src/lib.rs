//! Shared helpers for the witness tests in `tests/witnesses.rs`.
//!
//! Everything here goes through the public API of the real `server` / `iggy` crates
//! (path dependencies on /repo); nothing is mocked and /repo needs no hook for these.

use bytes::Bytes;
use iggy::messages::send_messages::Message;
use iggy::utils::byte_size::IggyByteSize;
use iggy::utils::expiry::IggyExpiry;
use iggy::utils::sizeable::Sizeable;
use iggy::utils::timestamp::IggyTimestamp;
use server::configs::system::{CacheConfig, PartitionConfig, SegmentConfig, SystemConfig};
use server::state::system::PartitionState;
use server::streaming::batching::appendable_batch_info::AppendableBatchInfo;
use server::streaming::models::messages::RetainedMessage;
use server::streaming::partitions::partition::Partition;
use server::streaming::persistence::persister::{FileWithSyncPersister, PersisterKind};
use server::streaming::storage::SystemStorage;
use std::sync::atomic::{AtomicU32, AtomicU64};
use std::sync::Arc;
use tempfile::TempDir;

/// `n` messages with ids `from+1 ..= from+n` and distinct 12-byte payloads.
pub fn messages(from: u128, n: u128) -> Vec<Message> {
    (from..from + n)
        .map(|i| Message::new(Some(i + 1), Bytes::from(format!("payload-{i:04}")), None))
        .collect()
}

pub fn batch_size(messages: &[Message]) -> IggyByteSize {
    messages.iter().map(|m| m.get_size_bytes()).sum::<IggyByteSize>()
}

pub fn persister() -> Arc<PersisterKind> {
    Arc::new(PersisterKind::FileWithSync(FileWithSyncPersister {}))
}

pub fn storage(config: &Arc<SystemConfig>) -> Arc<SystemStorage> {
    Arc::new(SystemStorage::new(config.clone(), persister()))
}

/// System configuration rooted in `dir`, cache off, with the given save threshold and
/// segment size (bytes); everything else is the server default.
pub fn config(dir: &TempDir, messages_required_to_save: u32, segment_size: u64) -> Arc<SystemConfig> {
    Arc::new(SystemConfig {
        path: dir.path().to_str().unwrap().to_string(),
        cache: CacheConfig {
            enabled: false,
            ..Default::default()
        },
        partition: PartitionConfig {
            messages_required_to_save,
            ..Default::default()
        },
        segment: SegmentConfig {
            size: IggyByteSize::from(segment_size),
            ..Default::default()
        },
        ..Default::default()
    })
}

/// Partition 1 of topic 1 of stream 1 (fresh counters), with or without its first segment.
pub async fn new_partition(config: Arc<SystemConfig>, with_segment: bool) -> Partition {
    let storage = storage(&config);
    Partition::create(
        1,
        1,
        1,
        with_segment,
        config,
        storage,
        IggyExpiry::NeverExpire,
        Arc::new(AtomicU64::new(0)),
        Arc::new(AtomicU64::new(0)),
        Arc::new(AtomicU64::new(0)),
        Arc::new(AtomicU64::new(0)),
        Arc::new(AtomicU32::new(0)),
        IggyTimestamp::now(),
    )
    .await
}

/// What a server restart does for one partition: a new object over the same directory,
/// loaded from disk.
pub async fn reload_partition(config: Arc<SystemConfig>) -> Partition {
    let mut partition = new_partition(config, false).await;
    partition
        .load(PartitionState {
            id: 1,
            created_at: IggyTimestamp::now(),
        })
        .await
        .expect("partition load after restart");
    partition
}

/// One `append_messages` call with `n` fresh messages (ids continue at `from+1`).
pub async fn send(partition: &mut Partition, from: u128, n: u128) {
    let batch = messages(from, n);
    let size = batch_size(&batch);
    partition
        .append_messages(AppendableBatchInfo::new(size, 1), batch, None)
        .await
        .expect("append_messages");
}

pub fn offsets(polled: &[Arc<RetainedMessage>]) -> Vec<u64> {
    polled.iter().map(|m| m.offset).collect()
}

pub fn range(from: u64, to_inclusive: u64) -> Vec<u64> {
    (from..=to_inclusive).collect()
}
