#!/usr/bin/env bash
# Runs the witness tests against the real crates in /repo.
# Extra arguments go to the test binary (after `--`), e.g. `./run.sh f4_ --nocapture`.
# Exit status is cargo's: 0 = every selected test passed, 101 = at least one failed
# (on the unrepaired tree every witness is EXPECTED to fail), other = build problem.
# Set REPLAY_BACKTRACE=1 for panic backtraces (off by default: they drown the one line
# that matters).
set -u
cd "$(dirname "$(readlink -f "$0")")" || exit 2
# offline resolution needs exactly the versions /repo was locked to
cp /repo/Cargo.lock ./Cargo.lock || exit 2
export CARGO_NET_OFFLINE=true
export CARGO_TARGET_DIR="${CARGO_TARGET_DIR:-/verif/build/replay-target}"
export RUST_BACKTRACE="${REPLAY_BACKTRACE:-0}"
cargo test --offline --test "${REPLAY_TEST:-witnesses}" -- --test-threads 4 "$@"
exit $?
